"""C12 - dagwire layer 2: what the edge updates of layer 1 (contracts/dag.py) mean for the wire view.

Wire structure of one register key k (nodes are integers here; in/out nodes are two distinguished nodes):
   on(x)  : node x lies on the wire;  idx(x): its position;  L: number of nodes on the wire
   WIRE:    idx is injective on on-nodes, 0 <= idx < L there, idx(in) = 0, idx(out) = L-1, in/out are on the wire, and the
            k-keyed edges are exactly  E(a,b) <=> on(a) & on(b) & idx(b) = idx(a)+1          (a single path in -> ... -> out)
SPLICE   (add / insert_at on this wire): given E(u,v) and a fresh node w (not on the wire), the update
            E' = E - {(u,v)} + {(u,w),(w,v)}   is again a WIRE, with w inserted right after u (positions after u shifted by one)
UNSPLICE (remove_op): given E(a,w), E(w,b), the update  E' = E restricted to nodes != w, plus (a,b)  is again a WIRE with w removed
ACYCLIC-APPEND: if rank strictly increases along every edge (of every key) and the old edges into the out nodes (p_i,out_i) are
            replaced by (p_i,w),(w,out_i) for finitely many wires, a strictly increasing rank exists again (explicit witness)
ACYCLIC-REMOVE: replacing (a,w),(w,b) by (a,b) keeps the same rank strictly increasing.
Acyclicity of insert_at on a pair of edges the circuit reports as compatible is T-cycle (DESIGN 4.3, trusted) + the bounded check of
find_incompatible_edges.  All obligations are quantifier-free goals for arbitrary (skolem) nodes a, b under the WIRE assumptions
(which are universally quantified over nodes; z3 instantiates them by E-matching).
"""
from __future__ import annotations

import z3

from .symplectic import _ob

Int = z3.IntSort()


def _wire(on, idx, L, nin, nout, E):
    x, y = z3.Ints("wx wy")
    return [
        z3.ForAll([x, y], z3.Implies(z3.And(on(x), on(y), idx(x) == idx(y)), x == y)),
        z3.ForAll([x], z3.Implies(on(x), z3.And(idx(x) >= 0, idx(x) < L))),
        on(nin), on(nout), idx(nin) == 0, idx(nout) == L - 1, L >= 2,
        z3.ForAll([x, y], E(x, y) == z3.And(on(x), on(y), idx(y) == idx(x) + 1)),
    ]


def obligations():
    out = []
    fn = "graphiq.circuit.circuit_dag:CircuitDAG._insert_at"
    on = z3.Function("on", Int, z3.BoolSort())
    idx = z3.Function("idx", Int, Int)
    E = z3.Function("E", Int, Int, z3.BoolSort())
    L, nin, nout, u, v, w, a, b = z3.Ints("L nin nout u v w a b")
    base = _wire(on, idx, L, nin, nout, E)
    # ---- SPLICE
    asm = base + [E(u, v), z3.Not(on(w))]
    on2 = lambda x: z3.Or(on(x), x == w)
    idx2 = lambda x: z3.If(x == w, idx(u) + 1, z3.If(z3.And(on(x), idx(x) > idx(u)), idx(x) + 1, idx(x)))
    E2 = lambda x, y: z3.Or(z3.And(E(x, y), z3.Not(z3.And(x == u, y == v))), z3.And(x == u, y == w), z3.And(x == w, y == v))
    cl = "splice keeps the key's edges a single path in -> out with the new node right after u"
    out.append(_ob("L2.wire.splice.edges-are-consecutive-positions", fn, asm,
                   E2(a, b) == z3.And(on2(a), on2(b), idx2(b) == idx2(a) + 1), cl))
    out.append(_ob("L2.wire.splice.positions-injective", fn, asm + [on2(a), on2(b), idx2(a) == idx2(b)], a == b, cl))
    out.append(_ob("L2.wire.splice.positions-in-range", fn, asm + [on2(a)], z3.And(idx2(a) >= 0, idx2(a) < L + 1), cl))
    out.append(_ob("L2.wire.splice.ends", fn, asm, z3.And(on2(nin), on2(nout), idx2(nin) == 0, idx2(nout) == L), cl))
    out.append(_ob("L2.wire.splice.order-of-old-nodes-kept", fn, asm + [on(a), on(b), idx(a) < idx(b)], idx2(a) < idx2(b),
                   "the operations already on the wire keep their relative order"))
    # ---- UNSPLICE
    fn2 = "graphiq.circuit.circuit_dag:CircuitDAG._remove_node"
    asm = base + [E(a, w), E(w, b), w != nin, w != nout]
    x_, y_ = z3.Ints("px py")
    on3 = lambda x: z3.And(on(x), x != w)
    idx3 = lambda x: z3.If(idx(x) > idx(w), idx(x) - 1, idx(x))
    E3 = lambda x, y: z3.Or(z3.And(E(x, y), x != w, y != w), z3.And(x == a, y == b))
    cl = "removal re-joins predecessor and successor: the key's edges stay a single path in -> out without the node"
    out.append(_ob("L2.wire.unsplice.edges-are-consecutive-positions", fn2, asm,
                   E3(x_, y_) == z3.And(on3(x_), on3(y_), idx3(y_) == idx3(x_) + 1), cl))
    out.append(_ob("L2.wire.unsplice.positions-injective", fn2, asm + [on3(x_), on3(y_), idx3(x_) == idx3(y_)], x_ == y_, cl))
    out.append(_ob("L2.wire.unsplice.positions-in-range", fn2, asm + [on3(x_)], z3.And(idx3(x_) >= 0, idx3(x_) < L - 1), cl))
    out.append(_ob("L2.wire.unsplice.ends", fn2, asm, z3.And(on3(nin), on3(nout), idx3(nin) == 0, idx3(nout) == L - 2), cl))
    # ---- ACYCLIC-APPEND (rank witness).  G: all edges (any key); isout(x): x is a wire output (no outgoing edge)
    fn3 = "graphiq.circuit.circuit_dag:CircuitDAG._add"
    G = z3.Function("G", Int, Int, z3.BoolSort())
    rank = z3.Function("rank", Int, Int)
    isout = z3.Function("isout", Int, z3.BoolSort())
    repl = z3.Function("repl", Int, Int, z3.BoolSort())  # the replaced edges (p_i, out_i)
    x, y = z3.Ints("gx gy")
    big = z3.Int("maxrank")
    asm = [
        z3.ForAll([x, y], z3.Implies(G(x, y), rank(x) < rank(y))),
        z3.ForAll([x], z3.And(rank(x) >= 0, rank(x) <= big)),
        z3.ForAll([x, y], z3.Implies(isout(x), z3.Not(G(x, y)))),
        z3.ForAll([x, y], z3.Implies(repl(x, y), z3.And(G(x, y), isout(y)))),
        z3.Not(isout(w)), z3.ForAll([x], z3.And(z3.Not(G(x, w)), z3.Not(G(w, x)))),
    ]
    G2 = lambda p, q: z3.Or(z3.And(G(p, q), z3.Not(repl(p, q))), z3.And(q == w, z3.Exists([y], repl(p, y))),
                            z3.And(p == w, z3.Exists([x], repl(x, q))))
    rank2 = lambda p: z3.If(p == w, 2 * big + 1, z3.If(isout(p), 2 * rank(p) + 2 * big + 2, 2 * rank(p)))
    out.append(_ob("L2.acyclic.append.rank-witness", fn3, asm + [G2(a, b)], rank2(a) < rank2(b),
                   "appending a node before the outputs of its wires keeps the graph acyclic (explicit strictly increasing rank)"))
    # ---- ACYCLIC-REMOVE
    asm = [z3.ForAll([x, y], z3.Implies(G(x, y), rank(x) < rank(y)))]
    pa, pb = z3.Ints("pa pb")
    G3 = lambda p, q: z3.Or(z3.And(G(p, q), p != w, q != w), z3.And(G(p, w), G(w, q)))
    out.append(_ob("L2.acyclic.remove.rank-kept", fn2, asm + [G3(pa, pb)], rank(pa) < rank(pb),
                   "re-joining predecessors and successors of a removed node keeps the old rank strictly increasing"))
    return out
