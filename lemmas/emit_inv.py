"""C04 - the inductive step of the emission invariant EmitInv over the wire view (lemmas/wires.py style).

Wire view of ONE photon wire (register key k = p_i): on(x), idx(x), L, in/out nodes and the k-keyed edges E as in lemmas/wires.py
(WIRE), plus per node on the wire
   kind(x)   IN | OUT | EMIT (a CNOT with control_type e whose target is this photon) | ONEQ (a one-qubit op on this photon) |
             CCT (a classically controlled op - MeasurementCNOTandReset / ClassicalCNOT / ClassicalCZ - with an emitter control and this
             photon as TARGET) | anything else = a forbidden role (photon as quantum control, photon-photon op ...)
   fixed(x)  the node's operation carries the label "Fixed"
   iscnot(x) / isinput(x): class tests the moves' filters use.  Class -> kind:  isinput(x) <=> kind(x) = IN;  iscnot(x) => kind(x) is
             EMIT or a forbidden role (a CNOT on a photon wire is either the emission or has the photon in a forbidden role)
EmitInv(wire) :=  WIRE  and  kind(in) = IN, kind(out) = OUT,  L >= 3,
                  the node at position 1 has kind EMIT and is Fixed,
                  every node at a position 1 < j < L-1 has kind ONEQ or CCT.
Steps (premises = exactly what the move contracts of contracts/moves_sem.py guarantee; the WIRE part of the conclusion is proved in
lemmas/wires.py splice / unsplice):
  SPLICE-ONEQ   insert_at of a one-qubit gate (reg_type p, the edge's register) on a k-edge (u, v) with iscnot(u)
                (add_photon_one_qubit_op: "edge-is-right-after-the-emission")                      => EmitInv, new node at position 2
  SPLICE-CCT    insert_at of a MeasurementCNOTandReset(e -> p) whose TARGET register is the edge's register, on a k-edge (u, v) with
                not isinput(u) (add_measurement_cnot_and_reset: "photon-edge-is-after-the-emission") => EmitInv
  UNSPLICE      remove_op of a node that is not Fixed / Input / Output (remove_op)                  => EmitInv
  REPLACE       replace_op of a node that is a one-qubit wrapper by a one-qubit gate on the same register (replace_*_one_qubit_op)
                                                                                                   => EmitInv (wire unchanged)
  NO-PP         the inserted two-qubit op has control_type e => still no photon-photon operation
  FIXED-KEPT    an emission CNOT / measure-and-reset labelled Fixed before a step is present and Fixed after it
Moves that insert on emitter wires only (add_emitter_one_qubit_op, add_emitter_cnot: all register types e, all edges listed in
edge_dict[e]) put the new node on no photon wire: every photon wire is literally unchanged (frame; nothing to prove).
Each step has a negative control (the same goal WITHOUT the premise the move contract supplies must be refutable): canaries().
All goals are quantifier free for a skolem node `a`; the EmitInv / WIRE assumptions are universally quantified over nodes.
"""
from __future__ import annotations

import z3

from .symplectic import _ob
from .wires import _wire

Int = z3.IntSort()
B = z3.BoolSort()
K_IN, K_OUT, K_EMIT, K_ONEQ, K_CCT = range(5)
FN = "graphiq.solvers.evolutionary_solver:EvolutionarySolver"


def _sym():
    on = z3.Function("on", Int, B)
    idx = z3.Function("idx", Int, Int)
    E = z3.Function("E", Int, Int, B)
    kind = z3.Function("kind", Int, Int)
    fixed = z3.Function("fixed", Int, B)
    iscnot = z3.Function("iscnot", Int, B)
    isinput = z3.Function("isinput", Int, B)
    return on, idx, E, kind, fixed, iscnot, isinput


def emit_inv(on, idx, L, nin, nout, E, kind, fixed, iscnot, isinput):
    x = z3.Int("ex")
    return _wire(on, idx, L, nin, nout, E) + [
        kind(nin) == K_IN, kind(nout) == K_OUT, L >= 3,
        z3.ForAll([x], z3.Implies(z3.And(on(x), idx(x) == 1), z3.And(kind(x) == K_EMIT, fixed(x)))),
        z3.ForAll([x], z3.Implies(z3.And(on(x), idx(x) > 1, idx(x) < L - 1), z3.Or(kind(x) == K_ONEQ, kind(x) == K_CCT))),
        # class -> kind
        z3.ForAll([x], isinput(x) == (kind(x) == K_IN)),
        z3.ForAll([x], z3.Implies(iscnot(x), z3.Or(kind(x) == K_EMIT, kind(x) > K_CCT))),
    ]


def _goals(on2, idx2, L2, nin, nout, kind2, fixed2, a):
    return {
        "position-1-is-the-Fixed-emission": z3.Implies(z3.And(on2(a), idx2(a) == 1), z3.And(kind2(a) == K_EMIT, fixed2(a))),
        "later-nodes-are-one-qubit-or-classically-controlled-targets":
            z3.Implies(z3.And(on2(a), idx2(a) > 1, idx2(a) < L2 - 1), z3.Or(kind2(a) == K_ONEQ, kind2(a) == K_CCT)),
        "ends-and-length": z3.And(kind2(nin) == K_IN, kind2(nout) == K_OUT, L2 >= 3),
    }


def _steps():
    """-> list of (step name, function, assumptions, {goal name: goal}, premise index to drop for the negative control, clause)"""
    on, idx, E, kind, fixed, iscnot, isinput = _sym()
    L, nin, nout, u, v, w, a, p, s, n = z3.Ints("L nin nout u v w a p s n")
    inv = emit_inv(on, idx, L, nin, nout, E, kind, fixed, iscnot, isinput)
    out = []
    # ---- SPLICE (as lemmas/wires.py): w fresh, inserted on the edge (u, v)
    on2 = lambda x: z3.Or(on(x), x == w)
    idx2 = lambda x: z3.If(x == w, idx(u) + 1, z3.If(z3.And(on(x), idx(x) > idx(u)), idx(x) + 1, idx(x)))
    for nm, kw, prem, mv, cl in (
            ("splice-one-qubit-gate-after-the-emission", K_ONEQ, iscnot(u), "add_photon_one_qubit_op",
             "a one-qubit gate inserted on a photon edge whose tail is a CNOT lands directly after the emission"),
            ("splice-measurement-controlled-target-after-the-emission", K_CCT, z3.Not(isinput(u)), "add_measurement_cnot_and_reset",
             "a measurement-controlled correction whose target photon edge does not start at the Input lands after the emission")):
        kind2 = lambda x, _kw=kw: z3.If(x == w, _kw, kind(x))
        fixed2 = lambda x: z3.If(x == w, False, fixed(x))
        asm = inv + [E(u, v), z3.Not(on(w)), prem]
        g = _goals(on2, idx2, L + 1, nin, nout, kind2, fixed2, a)
        g["new-node-is-after-the-emission"] = idx2(w) >= 2
        if kw == K_ONEQ:
            g["new-node-is-directly-after-the-emission"] = idx2(w) == 2
        out.append((nm, f"{FN}.{mv}", asm, g, len(asm) - 1, cl, "position-1-is-the-Fixed-emission"))
    # ---- UNSPLICE: E(p, w), E(w, s); w not Fixed, not Input / Output
    on3 = lambda x: z3.And(on(x), x != w)
    idx3 = lambda x: z3.If(idx(x) > idx(w), idx(x) - 1, idx(x))
    asm = inv + [E(p, w), E(w, s), kind(w) != K_IN, kind(w) != K_OUT, z3.Not(fixed(w))]
    g = _goals(on3, idx3, L - 1, nin, nout, kind, fixed, a)
    out.append(("unsplice-a-node-that-is-not-Fixed", f"{FN}.remove_op", asm, g, len(asm) - 1,
                "removing a node that is not Fixed / Input / Output keeps the emission first on the wire", "position-1-is-the-Fixed-emission"))
    # ---- REPLACE: node n (a one-qubit wrapper on this wire) gets another one-qubit op on the same register; labels may change
    fx = z3.Bool("new_op_is_fixed")
    kind4 = lambda x: z3.If(x == n, K_ONEQ, kind(x))
    fixed4 = lambda x: z3.If(x == n, fx, fixed(x))
    asm = inv + [on(n), kind(n) == K_ONEQ]
    g = _goals(on, idx, L, nin, nout, kind4, fixed4, a)
    out.append(("replace-a-one-qubit-wrapper-on-the-same-register", f"{FN}.replace_photon_one_qubit_op", asm, g, len(asm) - 1,
                "replacing a one-qubit wrapper by a one-qubit gate on the same register changes no position and no role on the wire",
                "position-1-is-the-Fixed-emission"))
    return out


def _global_steps():
    """node-level clauses: no photon-photon op; Fixed emission / measurement nodes stay"""
    out = []
    pp = z3.Function("both_registers_are_photons", Int, B)
    present = z3.Function("present", Int, B)
    fixed = z3.Function("fixed", Int, B)
    core = z3.Function("is_emission_or_measure_reset", Int, B)  # class CNOT / MeasurementCNOTandReset
    wrapper = z3.Function("is_one_qubit_wrapper", Int, B)
    x = z3.Int("gx")
    a, w, n = z3.Ints("a w n")
    ctrl_p, tgt_p, fx = z3.Bools("control_type_is_p target_type_is_p new_op_is_fixed")
    base = [z3.ForAll([x], z3.Implies(present(x), z3.Not(pp(x)))), z3.ForAll([x], z3.Not(z3.And(core(x), wrapper(x))))]
    pp2 = lambda y: z3.If(y == w, z3.And(ctrl_p, tgt_p), pp(y))
    pres2 = lambda y: z3.Or(present(y), y == w)
    out.append(("insert-keeps-no-photon-photon-operation", f"{FN}.add_emitter_cnot", base + [z3.Not(present(w)), z3.Not(ctrl_p)],
                {"no-photon-photon-op": z3.Implies(pres2(a), z3.Not(pp2(a)))}, len(base) + 1,
                "every two-qubit operation a move inserts is controlled by an emitter, so none acts between two photons",
                "no-photon-photon-op"))
    keep = lambda pres_, fixed_: z3.Implies(z3.And(present(a), fixed(a), core(a)), z3.And(pres_(a), fixed_(a)))
    out.append(("remove-keeps-the-Fixed-emissions-and-measurements", f"{FN}.remove_op", base + [present(w), z3.Not(fixed(w))],
                {"fixed-kept": keep(lambda y: z3.And(present(y), y != w), fixed)}, len(base) + 1,
                "emission CNOTs and measure-and-reset operations labelled Fixed are never removed", "fixed-kept"))
    out.append(("replace-keeps-the-Fixed-emissions-and-measurements", f"{FN}.replace_emitter_one_qubit_op", base + [present(n), wrapper(n)],
                {"fixed-kept": keep(present, lambda y: z3.If(y == n, fx, fixed(y)))}, len(base) + 1,
                "replacements only touch one-qubit wrappers, never an emission CNOT / measure-and-reset", "fixed-kept"))
    out.append(("insert-keeps-the-Fixed-emissions-and-measurements", f"{FN}.add_emitter_one_qubit_op", base + [z3.Not(present(w))],
                {"fixed-kept": keep(pres2, lambda y: z3.If(y == w, False, fixed(y)))}, None,
                "insertions remove nothing and relabel nothing", "fixed-kept"))
    return out


def obligations():
    out = []
    for nm, fn, asm, goals, _, cl, _ in _steps() + _global_steps():
        for gname, g in goals.items():
            out.append(_ob(f"L2.emit.{nm}.{gname}", fn, asm, g, f"EmitInv step: {cl}", timeout=5000))
    return out


def _concrete_control(nm):
    """the negative control on the smallest concrete wire  in(0) - emission(1) - [gate(2)] - out : the step WITHOUT its premise
    breaks EmitInv (evaluated directly, no solver)"""
    if nm.startswith("splice"):
        wire = ["in", "emit", "out"]
        new = ["in", "new", "emit", "out"]  # spliced on the edge (in, emit): the tail is the Input
        return {"wire": wire, "after splicing on (in, emission)": new, "position 1": new[1]}, new[1] != "emit"
    if nm.startswith("unsplice"):
        wire = ["in", "emit", "gate", "out"]
        new = ["in", "gate", "out"]  # the Fixed emission itself is removed
        return {"wire": wire, "after removing the Fixed emission": new, "position 1": new[1]}, new[1] != "emit"
    if nm.startswith("replace-a"):
        wire = ["in", "emit", "out"]
        new = ["in", "oneq", "out"]  # the replaced node is the emission, not a wrapper
        return {"wire": wire, "after replacing the emission": new}, new[1] != "emit"
    if nm.startswith("insert-keeps-no"):
        return {"inserted": "CNOT(control_type p, target_type p)"}, True
    if nm.startswith("remove-keeps"):
        return {"removed": "a Fixed emission CNOT"}, True
    if nm.startswith("replace-keeps"):
        return {"replaced": "a Fixed emission CNOT by an op without the label"}, True
    return {}, False


def canaries():
    """negative controls: each step's main goal WITHOUT the premise supplied by the move contract must be refuted"""
    out = []
    for nm, fn, asm, goals, drop, cl, main in _steps() + _global_steps():
        if drop is None:
            continue
        weak = [a for i, a in enumerate(asm) if i != drop]
        o = _ob(f"canary.L2.emit.{nm}.without-the-move-contract's-premise", fn, weak, goals[main], cl, timeout=5000)
        wit, ok = _concrete_control(nm)
        out.append({"name": o.name, "function": fn, "refuted": o.status == "refuted", "replayed": bool(ok) and o.status == "refuted",
                    "witness": wit, "ms": o.ms})
    return out
