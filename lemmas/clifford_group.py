"""C20 - complete finite-domain lemmas [F] about graphiq's single-qubit Clifford library, by evaluating the REAL code.

What is exact and what is float
-------------------------------
* graphiq's five generator matrices (dmf.hadamard/phase/sigmax/sigmay/sigmaz, float64) are lifted entrywise to
  Q(i, sqrt2) (`lemmas/q8.py`): obligation `C20.F.generators` proves every float entry is within 4e-16 (2 ulp) of a point of
  the grid {0, +-1, +-1/2, +-1/sqrt2} x i{...} and that the lifted matrices are the textbook H, P, X, Y, Z (written here
  independently).  This lift is the ONLY place where a float is read by the exact part.
* "exact" obligations then run graphiq's own functions (`local_clifford_composition`, `one_qubit_cliffords`,
  `local_clifford_to_matrix_map`, `local_cliffords_name_to_matrix_map`) with the five dmf builders patched to return the
  exact lifts (numpy object arrays of Q8; `np.eye(2) @ M` and `A @ B` on object arrays use Q8's exact + and *; python floats
  convert exactly).  All group facts (24, inequivalence, closure, Clifford property, G192 invariance, gap) are computed in
  that field - no tolerance.
* "float" obligations run the unmodified float code (`check_equivalent_unitaries`, `is_unitary`,
  `find_local_clifford_by_matrix`, `simplify_local_clifford`) on complete finite domains (all 192 x 24 pairs, all 192
  matrices, all 24 x 24 products, the complete double coset C.T.C of non-Clifford matrices) and compare the verdict with the
  exact verdict.  For those inputs nothing is assumed: the real float code ran on them.
* the gap lemma `C20.F.gap` (exact) says why this is robust: for every pair (U1 in G192, U2 in the library) either
  U1 == gp*U2 and |gp| == 1 exactly, or some quantity np.allclose looks at is off by >= 0.29; np.allclose's tolerance here
  is <= 1e-8 + 1e-5*sqrt2 < 2.5e-5.  Hence for ANY float input within 1e-3 of a G192 element the float verdict equals the
  exact one, assuming only that a 2x2 complex product/quotient is computed with error < 1e-3 (S3; IEEE gives ~1e-16).
  For words of length n the float product drifts by at most ~ n * 2^-50 from its exact value: below 1e-3 for n < 10^12.
"""
from __future__ import annotations

import contextlib
import itertools
import time
import traceback
from fractions import Fraction as Fr

import numpy as np

from vf.core import Obl
from . import q8
from .q8 import Q8, ZERO, ONE, I_UNIT, INV_SQRT2, OMEGA

OPS = "graphiq.circuit.ops"
DMF = "graphiq.backends.density_matrix.functions"
GEN_FUNCS = {"Hadamard": "hadamard", "Phase": "phase", "SigmaX": "sigmax", "SigmaY": "sigmay", "SigmaZ": "sigmaz"}

# textbook matrices, written independently of graphiq
TEXTBOOK = {
    "Identity": q8.mat([[1, 0], [0, 1]]),
    "Hadamard": q8.mat([[INV_SQRT2, INV_SQRT2], [INV_SQRT2, -INV_SQRT2]]),
    "Phase": q8.mat([[1, 0], [0, I_UNIT]]),
    "SigmaX": q8.mat([[0, 1], [1, 0]]),
    "SigmaY": q8.mat([[0, -I_UNIT], [I_UNIT, 0]]),
    "SigmaZ": q8.mat([[1, 0], [0, -1]]),
}
T_GATE = q8.mat([[1, 0], [0, OMEGA]])
ALLCLOSE_TOL = Fr(25, 10 ** 6)  # >= atol + rtol*|b| = 1e-8 + 1e-5*sqrt2 for every |b| <= sqrt2
GAP = Fr(1, 4)  # proved (exactly) lower bound on the separation of inequivalent pairs; the true minimum is reported


def _names(lst):
    return [c.__name__ for c in lst]


def equivalent(A, B):
    """A = lambda * B for a unit complex lambda  <=>  A B^dagger is a scalar matrix s*I with |s| = 1 (A, B unitary);
    decided exactly.  Returns the scalar or None."""
    def w(i, j):  # (A B^dagger)[i, j]
        return A[i, 0] * B[j, 0].conjugate() + A[i, 1] * B[j, 1].conjugate()

    if w(0, 1) != ZERO or w(1, 0) != ZERO:
        return None
    s = w(0, 0)
    if s == w(1, 1) and s.abs2() == ONE:
        return s
    return None


def is_unitary_exact(A):
    return A.shape[0] == A.shape[1] and q8.eq(q8.mm(A, q8.dagger(A)), TEXTBOOK["Identity"]) \
        and q8.eq(q8.mm(q8.dagger(A), A), TEXTBOOK["Identity"])


def first_nonzero(A):
    for i in range(A.shape[0]):
        for j in range(A.shape[1]):
            if A[i, j] != ZERO:
                return i, j
    return None


def ceu_exact(U1, U2, known_unitary=False):
    """graphiq's check_equivalent_unitaries with np.allclose read as exact equality; returns (verdict, separation) where
    separation is the exact largest quantity (squared) by which a failing comparison misses (None if verdict is True)"""
    if not known_unitary and not (is_unitary_exact(U1) and is_unitary_exact(U2)):
        return False, None
    r, c = first_nonzero(U2)
    gp = U1[r, c] / U2[r, c]
    d2 = q8.max_abs2_diff(U1, q8.scale(gp, U2))
    g2 = gp.abs2()
    ok = d2 == ZERO and g2 == ONE
    if ok:
        return True, None
    # | |gp| - 1 | >= | |gp|^2 - 1 | / (|gp| + 1) >= | |gp|^2 - 1 | / 3   (|gp| <= sqrt2 here)
    return False, (d2, g2)


@contextlib.contextmanager
def exact_generators(gens):
    import graphiq.backends.density_matrix.functions as dmf

    saved = {f: getattr(dmf, f) for f in GEN_FUNCS.values()}
    try:
        for cls, f in GEN_FUNCS.items():
            setattr(dmf, f, (lambda E: (lambda: E.copy()))(gens[cls]))
        yield
    finally:
        for f, v in saved.items():
            setattr(dmf, f, v)


def as_q8(M):
    M = np.asarray(M, dtype=object)
    out = np.empty(M.shape, dtype=object)
    for idx in np.ndindex(M.shape):
        out[idx] = Q8.of(M[idx])
    return out


class Ctx:
    """everything computed once from the real code; each obligation reads from here"""

    def __init__(self):
        import graphiq.circuit.ops as ops
        import graphiq.backends.density_matrix.functions as dmf

        self.ops, self.dmf = ops, dmf
        self.float_gens = {cls: getattr(dmf, f)() for cls, f in GEN_FUNCS.items()}
        self.gens = {cls: q8.lift(M) for cls, M in self.float_gens.items()}
        self.lists = [list(l) for l in ops.one_qubit_cliffords()]
        self.float_lib = [np.asarray(m) for m in ops.local_cliffords_name_to_matrix_map()]
        self.exact_lib = None
        self.exact_lib_by_list = None
        self.aligned = None
        if all(g is not None for g in self.gens.values()):
            with exact_generators(self.gens):
                self.exact_lib = [as_q8(m) for m in ops.local_cliffords_name_to_matrix_map()]
                self.exact_lib_by_list = [as_q8(ops.local_clifford_to_matrix_map(l)) for l in self.lists]
            # the two enumerations (lists / matrices) need not come in the same order: align matrices to lists
            keys = [q8.key(m) for m in self.exact_lib]
            perm = []
            for m in self.exact_lib_by_list:
                k = q8.key(m)
                perm.append(keys.index(k) if k in keys else None)
            self.aligned = None not in perm and sorted(perm) == list(range(len(keys))) and len(keys) == len(self.lists)
            if self.aligned:
                self.exact_lib = [self.exact_lib[j] for j in perm]
                self.float_lib = [self.float_lib[j] for j in perm]
        self._g192 = None

    def g192(self):
        if self._g192 is None:
            out = []
            for i, E in enumerate(self.exact_lib):
                ph = ONE
                for k in range(8):
                    out.append((i, k, q8.scale(ph, E)))
                    ph = ph * OMEGA
            self._g192 = out
        return self._g192

    def class_by_name(self, n):
        return getattr(self.ops, n)


def _run(out, name, fn, func, clause, kind="F", backend="exact"):
    t0 = time.time()
    try:
        bad = fn()
        status, detail = ("discharged", "") if not bad else ("refuted", str(bad)[:1500])
        wit = None if not bad else {"failing_inputs": bad if isinstance(bad, (list, dict, str)) else str(bad)}
    except Exception as e:  # noqa: BLE001
        tb = traceback.extract_tb(e.__traceback__)
        in_repo = bool(tb) and "graphiq" in (tb[-1].filename or "")
        status = "refuted" if in_repo else "undecided"
        detail = f"{'real code raised' if in_repo else 'checker could not evaluate'} {type(e).__name__}: {e} at {tb[-1].filename}:{tb[-1].lineno}" if tb else repr(e)
        wit = {"exception": detail} if in_repo else None
    out.append(Obl(name=name, function=func, status=status, kind=kind, backend=backend, ms=(time.time() - t0) * 1000,
                   detail=detail, clause=clause, witness=wit, replayed=status == "refuted"))


def obligations(tier="quick"):
    out = []
    try:
        cx = Ctx()
    except Exception as e:  # noqa: BLE001
        tb = traceback.extract_tb(e.__traceback__)
        in_repo = bool(tb) and "graphiq" in (tb[-1].filename or "")
        out.append(Obl(name="C20.F.setup", function=f"{OPS}:one_qubit_cliffords", status="refuted" if in_repo else "undecided",
                       kind="F", backend="exact", detail=f"{type(e).__name__}: {e}", replayed=in_repo,
                       witness={"exception": f"{type(e).__name__}: {e}"} if in_repo else None,
                       clause="the library can be enumerated"))
        return out
    ops = cx.ops
    dmf = cx.dmf

    # ------------------------------------------------------------------ generators
    def generators():
        bad = []
        for cls, E in cx.gens.items():
            if E is None:
                bad.append(f"{cls}: float matrix {cx.float_gens[cls].tolist()} is not within 4e-16 of the exact grid")
            elif not q8.eq(E, TEXTBOOK[cls]):
                bad.append(f"{cls}: dmf matrix {cx.float_gens[cls].tolist()} is not the textbook matrix")
        return bad

    _run(out, "C20.F.generators", generators, f"{DMF}:hadamard",
         "dmf.hadamard/phase/sigmax/sigmay/sigmaz (float64) are the textbook matrices to 2 ulp; exact lifts in Q(i,sqrt2)")
    if cx.exact_lib is None:
        return out

    # ------------------------------------------------------------------ enumeration
    def enum_24():
        bad = []
        a, b = ops.local_clifford_composition()
        expect = [list(x) + list(y) for x, y in itertools.product(a, b)]
        if len(cx.lists) != 24:
            bad.append(f"one_qubit_cliffords yields {len(cx.lists)} lists")
        if sorted(map(_names, cx.lists)) != sorted(map(_names, expect)):
            bad.append("one_qubit_cliffords is not {x + y : x in a, y in b} (the lists find_local_clifford_by_matrix returns)")
        if not cx.aligned:
            bad.append("local_cliffords_name_to_matrix_map() is not a bijective image of one_qubit_cliffords() under "
                       "local_clifford_to_matrix_map (exact)")
        if len({tuple(_names(l)) for l in cx.lists}) != len(cx.lists):
            bad.append("duplicate gate lists")
        for l in cx.lists:
            for c in l:
                if c.__name__ not in TEXTBOOK:
                    bad.append(f"list {_names(l)} contains {c.__name__}")
        if len(cx.float_lib) != 24:
            bad.append(f"local_cliffords_name_to_matrix_map yields {len(cx.float_lib)} matrices")
        return bad

    _run(out, "C20.F.enumeration.exactly-24-lists", enum_24, f"{OPS}:one_qubit_cliffords",
         "the enumeration consists of exactly 24 distinct gate lists over {I,H,P,X,Y,Z}: the set {x + y : x in a, y in b}; the "
         "matrix enumeration is its bijective image (order of enumeration is not part of the property)")
    if not cx.aligned:
        return out

    def product_order():
        bad = []
        for k, l in enumerate(cx.lists):
            want = TEXTBOOK["Identity"]
            for c in l:
                want = q8.mm(want, TEXTBOOK[c.__name__])  # list order: first listed gate is the LEFT factor
            if not q8.eq(cx.exact_lib_by_list[k], want):
                bad.append(f"local_clifford_to_matrix_map({_names(l)}) != product of the list in list order")
            if not q8.eq(cx.exact_lib[k], want):
                bad.append(f"local_cliffords_name_to_matrix_map()[{k}] != product of list {_names(l)}")
            F = cx.float_lib[k]
            if np.abs(F - q8.to_complex(want)).max() > 1e-15:
                bad.append(f"float matrix of {_names(l)} deviates from the exact product by more than 1e-15")
            zero_pat = [(i, j) for i in range(2) for j in range(2) if want[i, j] == ZERO and F[i, j] != 0]
            if zero_pat:
                bad.append(f"float library matrix of {_names(l)} has a rounding residue at {zero_pat} (pivot choice of "
                           f"check_equivalent_unitaries would break)")
        for cls in TEXTBOOK:
            c = cx.class_by_name(cls)
            with exact_generators(cx.gens):
                m = as_q8(ops.local_clifford_to_matrix_map(c))
            if not q8.eq(m, TEXTBOOK[cls]):
                bad.append(f"local_clifford_to_matrix_map({cls}) (single class) is not the textbook matrix")
        return bad

    _run(out, "C20.F.enumeration.matrix-is-product-in-list-order", product_order, f"{OPS}:local_clifford_to_matrix_map",
         "for each of the 24 lists the real matrix map equals g1.g2...gk (last listed gate acts first), exactly; the float "
         "library matrices agree to 1e-15 and carry exact zeros where the exact entry is zero")

    # ------------------------------------------------------------------ group facts (exact)
    def inequivalent():
        bad = []
        for i in range(len(cx.exact_lib)):
            for j in range(i + 1, len(cx.exact_lib)):
                if equivalent(cx.exact_lib[i], cx.exact_lib[j]) is not None:
                    bad.append([_names(cx.lists[i]), _names(cx.lists[j])])
        return bad

    _run(out, "C20.F.group.pairwise-inequivalent", inequivalent, f"{OPS}:local_cliffords_name_to_matrix_map",
         "no two of the 24 matrices differ by a global phase (all 276 pairs, exact)")

    table = {}

    def closed():
        bad = []
        lib_keys = {}
        for i, k, M in cx.g192():
            lib_keys.setdefault(q8.key(M), i)
        for i, j in itertools.product(range(len(cx.exact_lib)), repeat=2):
            Pm = q8.mm(cx.exact_lib[i], cx.exact_lib[j])
            fast = lib_keys.get(q8.key(Pm))  # Pm == omega^k E_fast exactly; uniqueness: pairwise-inequivalent
            hits = [fast] if fast is not None and equivalent(Pm, cx.exact_lib[fast]) is not None else \
                [k for k, E in enumerate(cx.exact_lib) if equivalent(Pm, E) is not None]
            if len(hits) != 1:
                bad.append([_names(cx.lists[i]), _names(cx.lists[j]), hits])
            else:
                table[(i, j)] = hits[0]
        ident = [k for k, E in enumerate(cx.exact_lib) if equivalent(E, TEXTBOOK["Identity"]) is not None]
        if len(ident) != 1:
            bad.append(["identity", ident])
        for g in ("Hadamard", "Phase", "SigmaX", "SigmaY", "SigmaZ"):
            if not any(equivalent(E, TEXTBOOK[g]) is not None for E in cx.exact_lib):
                bad.append(["generator missing", g])
        return bad

    _run(out, "C20.F.group.closed-under-multiplication", closed, f"{OPS}:local_cliffords_name_to_matrix_map",
         "all 24 x 24 products are, up to phase, exactly one library element; identity and the generators are members")

    def clifford():
        bad = []
        paulis = [TEXTBOOK[p] for p in ("SigmaX", "SigmaY", "SigmaZ")]
        signed = [q8.scale(s, p) for p in paulis for s in (ONE, -ONE)]
        for k, E in enumerate(cx.exact_lib):
            if not is_unitary_exact(E):
                bad.append([_names(cx.lists[k]), "not unitary"])
                continue
            for p in paulis:
                img = q8.mm(q8.mm(E, p), q8.dagger(E))
                if not any(q8.eq(img, s) for s in signed):
                    bad.append([_names(cx.lists[k]), "does not normalise the Pauli group"])
        return bad

    _run(out, "C20.F.group.members-are-cliffords", clifford, f"{OPS}:local_cliffords_name_to_matrix_map",
         "each of the 24 matrices is unitary and maps X, Y, Z to signed Paulis under conjugation (exact): 24 pairwise "
         "inequivalent Cliffords = the whole single-qubit Clifford group mod phase [T: its order is 24]")

    g192_keys = {}

    def g192_invariant():
        bad = []
        G = cx.g192()
        for i, k, M in G:
            g192_keys.setdefault(q8.key(M), (i, k))
        if len(g192_keys) != 192:
            bad.append(f"G192 has {len(g192_keys)} distinct elements")
        if q8.key(TEXTBOOK["Identity"]) not in g192_keys:
            bad.append("identity (np.eye(2), the loop's initial value) is not in G192")
        with exact_generators(cx.gens):
            for i, k, M in G:
                for s in TEXTBOOK:
                    # the REAL loop body: result @ mapping[name]
                    step = as_q8(M @ ops.local_clifford_to_matrix_map(cx.class_by_name(s)))
                    if q8.key(step) not in g192_keys:
                        bad.append([_names(cx.lists[i]), f"omega^{k}", s])
        return bad

    _run(out, "C20.F.G192.invariant-under-right-multiplication", g192_invariant, f"{OPS}:local_clifford_to_matrix_map",
         "G192 = {omega^k C} has 192 elements, contains eye(2), and g @ mapping[s] stays in G192 for all 192 x 6 (g, s): with "
         "the loop invariant of local_clifford_to_matrix_map every word over {I,H,P,X,Y,Z} of ANY length maps into G192")

    # ------------------------------------------------------------------ gap lemma (exact)
    gapinfo = {}

    def gap():
        bad = []
        worst = None
        n_true = 0
        for i, k, U1 in cx.g192():
            if not is_unitary_exact(U1):
                bad.append([_names(cx.lists[i]), k, "not unitary"])
                continue
            for j, U2 in enumerate(cx.exact_lib):
                verdict, sep = ceu_exact(U1, U2, known_unitary=True)  # library elements: unitary by members-are-cliffords
                truth = equivalent(U1, U2) is not None
                if verdict != truth:
                    bad.append([_names(cx.lists[i]), k, _names(cx.lists[j]), "pivot-based test != equivalence"])
                if truth != (i == j):
                    bad.append([_names(cx.lists[i]), k, _names(cx.lists[j]), "equivalence != same library index"])
                if verdict:
                    n_true += 1
                    continue
                d2, g2 = sep
                # separation: max entry |U1 - gp U2| >= GAP   or   ||gp| - 1| >= GAP
                far_d = d2.real_ge(GAP * GAP)
                far_g = ((g2 - ONE) * (g2 - ONE)).real_ge((3 * GAP) ** 2)  # | |gp|^2-1 | >= 3*GAP  =>  ||gp|-1| >= GAP
                if not (far_d or far_g):
                    bad.append([_names(cx.lists[i]), k, _names(cx.lists[j]), "separation below GAP",
                                complex(d2).real ** 0.5, complex(g2).real ** 0.5])
                m = max(complex(d2).real ** 0.5, abs(complex(g2).real ** 0.5 - 1))
                worst = m if worst is None else min(worst, m)
        gapinfo["worst"] = worst
        if n_true != 192:
            bad.append(f"{n_true} equivalent pairs, expected 192")
        if not GAP > 1000 * ALLCLOSE_TOL:
            bad.append("gap not above tolerance")
        return bad

    _run(out, "C20.F.gap.allclose-agrees-with-exact-equality", gap, f"{DMF}:check_equivalent_unitaries",
         "for all 192 x 24 pairs (U1 in G192, U2 in the library), with the pivot (row, col) = first nonzero of U2 and "
         "gp = U1[r,c]/U2[r,c]: either U1 == gp*U2 and |gp| == 1 exactly, or max|U1 - gp*U2| >= 1/4 or ||gp|-1| >= 1/4 "
         "(exact, Q(i,sqrt2)); np.allclose tolerance < 2.5e-5, so allclose and exact equality agree on this set")
    if out[-1].status == "discharged" and gapinfo.get("worst") is not None:
        out[-1].detail = f"minimum separation over the 4416 inequivalent pairs ~ {gapinfo['worst']:.4f}"

    # ------------------------------------------------------------------ the real float code on the complete domains
    float_g192 = [(i, k, q8.to_complex(M)) for i, k, M in cx.g192()]

    def ceu_float():
        bad = []
        for i, k, U1 in float_g192:
            if not dmf.is_unitary(U1):
                bad.append([_names(cx.lists[i]), k, "is_unitary False"])
            for j, U2 in enumerate(cx.float_lib):
                got = bool(dmf.check_equivalent_unitaries(U1, U2))
                if got != (i == j):
                    bad.append([_names(cx.lists[i]), k, _names(cx.lists[j]), got])
                if k == 0:
                    got2 = bool(dmf.check_equivalent_unitaries(U2, U1))
                    if got2 != (i == j):
                        bad.append(["swapped", _names(cx.lists[i]), _names(cx.lists[j]), got2])
        return bad

    _run(out, "C20.F.check_equivalent_unitaries.on-G192-x-library", ceu_float, f"{DMF}:check_equivalent_unitaries",
         "the real float check_equivalent_unitaries / is_unitary return the exact verdict on all 192 x 24 pairs (and the "
         "24 x 24 swapped pairs)", backend="exact+float64")

    def is_unitary_samples():
        bad = []
        non = {"2x3": np.ones((2, 3)), "zero": np.zeros((2, 2)), "2I": 2 * np.eye(2), "shear": np.array([[1.0, 1.0], [0.0, 1.0]]),
               "proj": np.array([[1.0, 0.0], [0.0, 0.0]]), "H*1.001": 1.001 * dmf.hadamard()}
        for n, M in non.items():
            if dmf.is_unitary(M):
                bad.append(f"is_unitary({n}) is True")
            if dmf.check_equivalent_unitaries(M, np.eye(2)) or dmf.check_equivalent_unitaries(np.eye(2), M):
                bad.append(f"check_equivalent_unitaries accepts the non-unitary {n}")
        return bad

    _run(out, "C20.F.is_unitary.rejects-non-unitary-samples", is_unitary_samples, f"{DMF}:is_unitary",
         "non-square, singular, scaled and sheared matrices are not unitary (finite sample; general matrices: bounded stand-in)",
         backend="float64")

    def find_192():
        bad = []
        for i, k, U in float_g192:
            got = ops.find_local_clifford_by_matrix(U)
            if _names(got) != _names(cx.lists[i]):
                bad.append([_names(cx.lists[i]), f"omega^{k}", "->", _names(got)])
        return bad

    _run(out, "C20.F.find_local_clifford_by_matrix.all-192", find_192, f"{OPS}:find_local_clifford_by_matrix",
         "for every one of the 192 matrices omega^k C the real function returns (never raises) the library list whose "
         "exact matrix is C", backend="exact+float64")

    def simplify_576():
        bad = []
        for (i, j), kx in table.items():
            got = ops.simplify_local_clifford(cx.lists[i] + cx.lists[j])
            if _names(got) != _names(cx.lists[kx]):
                bad.append([_names(cx.lists[i]), _names(cx.lists[j]), "->", _names(got), "expected", _names(cx.lists[kx])])
        if len(table) != 576:
            bad.append("closure table incomplete")
        return bad

    _run(out, "C20.F.simplify_local_clifford.all-24x24-products", simplify_576, f"{OPS}:simplify_local_clifford",
         "simplify_local_clifford(L_i + L_j) returns the library list that the exact closure table names, for all 576 pairs",
         backend="exact+float64")

    def rejects():
        bad = []
        seen = set()
        samples = []
        for i, A in enumerate(cx.exact_lib):
            for j, B in enumerate(cx.exact_lib):
                M = q8.mm(q8.mm(A, T_GATE), B)
                kk = q8.key(M)
                if kk in seen:
                    continue
                seen.add(kk)
                samples.append((f"{_names(cx.lists[i])}.T.{_names(cx.lists[j])}", M))
        n_exact_bad = 0
        for name, M in samples:
            if any(equivalent(M, E) is not None for E in cx.exact_lib):
                n_exact_bad += 1
                bad.append([name, "is (exactly) a Clifford?!"])
                continue
            try:
                got = ops.find_local_clifford_by_matrix(q8.to_complex(M))
                bad.append([name, "returned", _names(got)])
            except ValueError:
                pass
        # a grid of generic unitaries U(theta, phi, lam) away from the group, and non-unitary inputs
        grid = [0.3, 1.1, 2.0]
        for th, ph, la in itertools.product(grid, repeat=3):
            U = np.array([[np.cos(th / 2), -np.exp(1j * la) * np.sin(th / 2)],
                          [np.exp(1j * ph) * np.sin(th / 2), np.exp(1j * (ph + la)) * np.cos(th / 2)]])
            try:
                got = ops.find_local_clifford_by_matrix(U)
                bad.append([f"U({th},{ph},{la})", "returned", _names(got)])
            except ValueError:
                pass
        for n, M in {"zero": np.zeros((2, 2)), "2H": 2 * dmf.hadamard(), "shear": np.array([[1.0, 1.0], [0.0, 1.0]])}.items():
            try:
                got = ops.find_local_clifford_by_matrix(M)
                bad.append([n, "returned", _names(got)])
            except ValueError:
                pass
        gapinfo["n_reject"] = len(samples)
        return bad

    _run(out, "C20.F.find_local_clifford_by_matrix.rejects-non-clifford", rejects, f"{OPS}:find_local_clifford_by_matrix",
         "ValueError for the T gate and the complete double coset {A.T.B : A, B in the library} (exactly non-Clifford), for "
         "27 generic unitaries and 3 non-unitary matrices (a dense SAMPLE - not a proof for all non-Clifford matrices; the "
         "general statement follows from the [P] dispatch contract + the contract of check_equivalent_unitaries)",
         backend="exact+float64")
    if out[-1].status == "discharged":
        out[-1].detail = f"{gapinfo.get('n_reject')} distinct exact non-Clifford matrices + 30 float samples"

    return out
