"""L3 [F] lemma for C09: the name <-> matrix table of `lc_equivalence_check.local_clifford_ops` against the textbook gates.

Convention of the module under verification (its docstring): a Pauli on one qubit is the binary vector (z | x) with
X -> (0,1), Z -> (1,0), Y -> (1,1); a single-qubit Clifford acts on these vectors by an invertible 2x2 matrix Q over GF(2)
(new vector = Q . old vector), i.e. column 0 of Q is the image of Z and column 1 the image of X.  A name such as "P H" is a
product of gates, rightmost applied first (that is how `converter_gate_list` consumes it: `ops.split()[::-1]`), so it
denotes the unitary P.H.

Complete finite domain: all 16 binary 2x2 matrices.  For each one the REAL function is called on the one-block solution
[M]:  * M invertible (6 matrices = GL(2,2))  -> exactly one name; the unitary it denotes, built here from the textbook
         H, P, P^dagger (not from graphiq), conjugates Z and X to +-(the Paulis given by the columns of M);
      * M singular (10 matrices)            -> no name (such a block is not a Clifford operation).
Exact arithmetic: sqrt(2) H has integer entries and U A U^dagger = U' A U'^dagger / 2^h, so all matrices are small Gaussian
integers held exactly in complex128.  Also checked exhaustively for two blocks (all 36 ordered pairs of invertible
matrices): entry i of the result belongs to block i (one append per block, in order).  For n blocks in general this
positional fact follows from the loop structure and is not mechanised (it holds only when every block is invertible, which
`_is_valid_clifford` guarantees for the solutions `is_lc_equivalent` returns).
"""
from __future__ import annotations

import itertools
import time

import numpy as np

from vf.core import Obl

X = np.array([[0, 1], [1, 0]], dtype=complex)
Y = np.array([[0, -1j], [1j, 0]], dtype=complex)
Z = np.array([[1, 0], [0, -1]], dtype=complex)
Hs = np.array([[1, 1], [1, -1]], dtype=complex)  # sqrt(2) H
P = np.array([[1, 0], [0, 1j]], dtype=complex)
I2 = np.eye(2, dtype=complex)
GATE = {"I": (I2, 0), "H": (Hs, 1), "P": (P, 0), "P_dag": (P.conj().T, 0)}
PAULI_OF = {(0, 1): X, (1, 0): Z, (1, 1): Y}  # (z, x) -> matrix
FN = "graphiq.backends.lc_equivalence_check:local_clifford_ops"


def unitary_of(name):
    """name 'A B C' -> (A.B.C scaled to Gaussian integers, number of sqrt(2) factors)"""
    U, h = I2, 0
    for tok in name.split():
        g, k = GATE[tok]
        U, h = U @ g, h + k
    return U, h


def symplectic_of(name):
    """2x2 binary matrix (in the module's (z|x) convention) of conjugation by the named unitary; None if some image is not
    +-Pauli (cannot happen for Cliffords)"""
    U, h = unitary_of(name)
    cols = []
    for pauli in (Z, X):  # column 0: image of Z = (1,0); column 1: image of X = (0,1)
        img = U @ pauli @ U.conj().T / (2 ** h)
        hit = [zx for zx, m in PAULI_OF.items() if np.array_equal(img, m) or np.array_equal(img, -m)]
        if len(hit) != 1:
            return None
        cols.append(hit[0])
    return np.array([[cols[0][0], cols[1][0]], [cols[0][1], cols[1][1]]], dtype=int)


def obligations():
    out = []
    t0 = time.time()
    try:
        from graphiq.backends.lc_equivalence_check import local_clifford_ops
    except Exception as e:  # noqa: BLE001
        return [Obl(name="L3.symplectic.local_clifford_ops.table", function=FN, status="undecided", kind="F", backend="exact",
                    detail=f"{type(e).__name__}: {e}")]
    bad = []
    names = {}
    for bits in itertools.product((0, 1), repeat=4):
        M = np.array(bits, dtype=int).reshape(2, 2)
        inv = (M[0, 0] * M[1, 1] + M[0, 1] * M[1, 0]) % 2 == 1
        got = local_clifford_ops(np.array([M]))
        if not inv:
            if got != []:
                bad.append((bits, got, "singular block was given a name"))
            continue
        if len(got) != 1:
            bad.append((bits, got, "invertible block: expected exactly one name"))
            continue
        names[bits] = got[0]
        try:
            S = symplectic_of(got[0])
        except KeyError as e:
            bad.append((bits, got, f"unknown gate token {e}"))
            continue
        if S is None or not np.array_equal(S, M):
            bad.append((bits, got, f"name denotes {None if S is None else S.tolist()}"))
    ok = not bad and len(names) == 6 and len(set(names.values())) == 6
    out.append(Obl(name="L3.symplectic.local_clifford_ops.table", function=FN, status="discharged" if ok else "refuted", kind="F",
                   backend="exact", ms=(time.time() - t0) * 1000, detail="" if ok else f"{bad} names={names}",
                   witness=None if ok else {"failures": [list(map(str, b)) for b in bad]}, replayed=not ok,
                   clause="all 16 binary 2x2 blocks: the 6 invertible ones get the name whose textbook unitary (rightmost gate first) "
                          "acts on (z|x) vectors by exactly that matrix; the 10 singular ones get no name"))
    t0 = time.time()
    bad2 = []
    inv = list(names)
    for a, b in itertools.product(inv, repeat=2):
        got = local_clifford_ops(np.array([np.array(a).reshape(2, 2), np.array(b).reshape(2, 2)]))
        if got != [names[a], names[b]]:
            bad2.append((a, b, got))
    out.append(Obl(name="L3.symplectic.local_clifford_ops.positions[n=2]", function=FN, status="discharged" if not bad2 else "refuted",
                   kind="F", backend="exact", ms=(time.time() - t0) * 1000, detail="" if not bad2 else str(bad2[:5]),
                   witness=None if not bad2 else {"failures": [str(b) for b in bad2[:5]]}, replayed=bool(bad2),
                   clause="two-block solutions, all 36 ordered pairs of invertible blocks: result[i] is the name of block i"))
    return out


if __name__ == "__main__":
    for o in obligations():
        print(o.name, o.status, o.detail[:300])
