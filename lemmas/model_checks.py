"""Differential self-tests of the [A] models added for C16 / C09 / C08 (NOT proofs, not counted as obligations):
every model is evaluated on concrete small inputs through the engine's own value representation and compared with what
numpy / networkx / itertools really return.  A disagreement is a CHECKER error (props put it into Deductive.errors);
agreement is reported as a note.  Covered: ndarray @ (explicit sum and the SUM_SUPPORT2 closed form with a hint), reshape,
astype(bool), np.array_equal (symbolic-shape characterisation), np.sqrt on perfect squares, all()/any() characterisations,
networkx round trips and edge-level methods of contracts/nxmodel.py, itertools.combinations order.
"""
from __future__ import annotations

import itertools

import numpy as np
import z3

from pyvc import models
from pyvc.interp import Engine, Path, Interp, Frame
from pyvc.schema import const_nd, eval_nd
from pyvc.values import to_z3


def _interp(hooks=None):
    path = Path(Engine(2000), [])
    I = Interp(path, {}, set(), hooks or {})
    I.stack.append(Frame("selftest", {}, "selftest"))
    return I


def run(seed=0):
    """-> (n_cases, [failure texts])"""
    rng = np.random.default_rng(seed)
    fails, cases = [], 0

    def check(name, got, want):
        nonlocal cases
        cases += 1
        if not np.array_equal(np.asarray(got, dtype=float), np.asarray(want, dtype=float)):
            fails.append(f"{name}: model {np.asarray(got).tolist()} != real {np.asarray(want).tolist()}")

    # ---- matmul: explicit sum
    for _ in range(20):
        r, n, c = (int(x) for x in rng.integers(1, 4, size=3))
        A, B = rng.integers(-2, 3, size=(r, n)), rng.integers(-2, 3, size=(n, c))
        check("matmul", eval_nd(models.matmul(_interp(), const_nd(A), const_nd(B))), A @ B)
        v = rng.integers(-2, 3, size=(n,))
        check("matmul-vec", eval_nd(models.matmul(_interp(), const_nd(A), const_nd(v))), A @ v)
    # ---- matmul: closed form with a support hint (permutation matrices), inner dimension above the unroll limit
    old = models.MATMUL_UNROLL
    models.MATMUL_UNROLL = 0
    try:
        for _ in range(10):
            n = int(rng.integers(2, 5))
            perm = rng.permutation(n)
            P = np.zeros((n, n), dtype=int)
            P[np.arange(n), perm] = 1
            A = rng.integers(-2, 3, size=(n, n))
            inv = np.argsort(perm)

            def inv_term(i):
                t = z3.IntVal(0)
                for k in range(n):
                    t = z3.If(to_z3(i) == k, z3.IntVal(int(inv[k])), t)
                return t

            I = _interp({"matmul_support": lambda interp, a, b: (lambda i, k: [inv_term(i)])})
            got = eval_nd(models.matmul(I, const_nd(P.T), const_nd(A)))
            check("matmul-closed-form", got, P.T @ A)
            bad = [r_ for r_ in I.path.engine.results.values() if r_.status != "discharged"]
            if bad:
                fails.append("matmul-closed-form: support premise not discharged on a permutation matrix")
    finally:
        models.MATMUL_UNROLL = old
    # ---- reshape
    for shp_from, shp_to in [((8, 1), (2, 2, 2)), ((8,), (2, 2, 2)), ((6, 2), (3, 4)), ((3, 4), (12,)), ((2, 2, 2), (8, 1)), ((4, 1), (1, 2, 2))]:
        a = rng.integers(-3, 4, size=shp_from)
        src = const_nd(a) if a.ndim <= 2 else None
        if src is None:
            flat = const_nd(a.reshape(-1))
            src = models.nd_reshape(_interp(), flat, shp_from)
        got = models.nd_reshape(_interp(), src, shp_to)
        check(f"reshape{shp_from}->{shp_to}", _eval_any(got), a.reshape(shp_to))
    # ---- astype(bool)
    a = rng.integers(-2, 3, size=(3, 3))
    I = _interp()
    got = I.call(I.getattr(const_nd(a), "astype"), [models.python_builtin(I, "bool")], {})
    check("astype(bool)", eval_nd(got), a.astype(bool).astype(int))
    # ---- np.sqrt on perfect squares
    for n in range(0, 40):
        cases += 1
        if int(np.sqrt(n * n)) != n:
            fails.append(f"np.sqrt({n}*{n})")
    # ---- networkx
    import networkx as nx

    for n in range(1, 5):
        pairs = list(itertools.combinations(range(n), 2))
        for bits in itertools.product((0, 1), repeat=len(pairs)):
            M = np.zeros((n, n), dtype=int)
            for (i, j), b in zip(pairs, bits):
                M[i, j] = M[j, i] = b
            for ctor in (nx.from_numpy_array, nx.to_networkx_graph):
                g = ctor(M)
                check("nx.roundtrip", nx.to_numpy_array(g), M)
                cases += 1
                if g.number_of_nodes() != n or list(g.nodes()) != list(range(n)):
                    fails.append("nx nodes order")
            g = nx.from_numpy_array(M)
            for v in range(n):
                nb = list(g.neighbors(v))
                cases += 1
                if len(set(nb)) != len(nb) or set(nb) != {u for u in range(n) if M[v, u]}:
                    fails.append("nx.neighbors is not a duplicate-free enumeration of the adjacent nodes")
            for (i, j) in pairs:
                h = g.copy()
                cases += 1
                if h.has_edge(i, j) != bool(M[i, j]):
                    fails.append("nx.has_edge")
                if M[i, j]:
                    h.remove_edge(i, j)
                else:
                    h.add_edge(i, j)
                M2 = M.copy()
                M2[i, j] = M2[j, i] = 1 - M[i, j]
                check("nx.add/remove_edge", nx.to_numpy_array(h), M2)
    # ---- itertools.combinations order
    for m in range(0, 6):
        cases += 1
        want = [(p, q) for p in range(m) for q in range(p + 1, m)]
        if list(itertools.combinations(range(m), 2)) != want:
            fails.append("itertools.combinations order")
    return cases, fails


def _eval_any(a):
    """evaluate an NDArr of any rank with concrete shape"""
    from pyvc.values import concrete_int, as_int_term

    shp = [concrete_int(s) for s in a.shape]
    out = np.zeros(shp, dtype=float)
    for idx in np.ndindex(*shp):
        v = z3.simplify(as_int_term(a.get(*[z3.IntVal(int(k)) for k in idx])))
        out[idx] = v.as_long()
    return out


def attach(d, seed=0):
    """run the self-tests and record the outcome on a Deductive"""
    try:
        cases, fails = run(seed)
    except Exception as e:  # noqa: BLE001
        d.errors.append(f"[A]-model self-test crashed: {type(e).__name__}: {e}")
        return
    if fails:
        d.errors.append("[A]-model self-test disagrees with the real library: " + "; ".join(fails[:5]))
    else:
        d.notes.append(f"[A]-model differential self-test (lemmas/model_checks.py): {cases} concrete cases agree with numpy/networkx/itertools")


if __name__ == "__main__":
    print(run())
