#!/usr/bin/env python3
import json, glob, sys, os
import jsonschema
ROOT = os.path.dirname(os.path.dirname(os.path.abspath(__file__)))
sch = json.load(open("/root/.vp/EVIDENCE.schema.json"))
man = json.load(open(f"{ROOT}/MANIFEST.json"))
jsonschema.validate(man, json.load(open("/root/.vp/MANIFEST.schema.json")))
bad = 0
for c in man["checks"]:
    p = os.path.join(ROOT, c["evidence_file"])
    if not os.path.exists(p):
        print("MISSING", p); bad += 1; continue
    ev = json.load(open(p))
    try:
        jsonschema.validate(ev, sch)
    except jsonschema.ValidationError as e:
        print("INVALID", p, str(e)[:200]); bad += 1; continue
    cov = ev["coverage"]
    print(f"{c['property_id']} level={ev['level']} obligations={cov.get('obligations')}/{cov.get('discharged')} evals={cov.get('evaluations')} "
          f"dn={cov.get('distinct_nontrivial')} viol={ev.get('violations')} wall={ev['wall_s']}")
sys.exit(1 if bad else 0)
