#!/bin/bash
# Development-time driver: run every registered check on the unchanged /repo and summarise.
#   tools/final_run.sh quick "0 1 2"      |   tools/final_run.sh thorough "0"
tier=${1:-quick}; seeds=${2:-0}
cd "$(dirname "$0")/.."
mkdir -p /tmp/final_logs
for seed in $seeds; do
  for i in $(seq -w 1 20); do
    p=C$i
    t0=$(date +%s)
    VERIF_SEED=$seed ./check $p --tier $tier > /tmp/final_logs/$p.$tier.$seed.log 2>&1
    rc=$?
    t1=$(date +%s)
    echo "$p tier=$tier seed=$seed exit=$rc $((t1-t0))s viol=$(grep -c '^VIOLATION' /tmp/final_logs/$p.$tier.$seed.log) kf=$(grep -c '^KNOWN-FINDING' /tmp/final_logs/$p.$tier.$seed.log) undecided=$(grep -c '^UNDECIDED' /tmp/final_logs/$p.$tier.$seed.log)"
  done
done
