#!/usr/bin/env python3
"""Run graphiq's pinned suite (guard off, -n 16 for speed) and compare with BASELINE.json stable_pass.
Usage: tools/run_baseline.py [repo_dir]   -> exit 0 iff every stable_pass test passed."""
import json, subprocess, sys, tempfile, os, xml.etree.ElementTree as ET
repo = sys.argv[1] if len(sys.argv) > 1 else "/repo"
base = json.load(open("/root/.vp/BASELINE.json"))
with tempfile.TemporaryDirectory() as d:
    x = os.path.join(d, "j.xml")
    env = dict(os.environ); env.pop("GRAPHIQ_VERIF", None)
    subprocess.run(["/venv/bin/python", "-m", "pytest", "-q", "-p", "no:cacheprovider", "--timeout=900",
                    "--continue-on-collection-errors", "-n", os.environ.get("VERIF_BASE_N", "16"), f"--junitxml={x}"], cwd=repo, env=env,
                   stdout=subprocess.DEVNULL, stderr=subprocess.DEVNULL)
    passed = set()
    for tc in ET.parse(x).getroot().iter("testcase"):
        if not any(c.tag in ("failure", "error", "skipped") for c in tc):
            passed.add(f"{tc.get('classname')}::{tc.get('name')}")
missing = [t for t in base["stable_pass"] if t not in passed]
if missing:
    # tests that use matplotlib state can fail under xdist; re-run the missing ones serially, as the baseline does
    ids = []
    for m in missing:
        mod, name = m.split("::", 1)
        ids.append(mod.replace(".", "/") + ".py::" + name)
    with tempfile.TemporaryDirectory() as d:
        x = os.path.join(d, "j.xml")
        subprocess.run(["/venv/bin/python", "-m", "pytest", "-q", "-p", "no:cacheprovider", "--timeout=900",
                        f"--junitxml={x}"] + ids, cwd=repo, stdout=subprocess.DEVNULL, stderr=subprocess.DEVNULL)
        for tc in ET.parse(x).getroot().iter("testcase"):
            if not any(c.tag in ("failure", "error", "skipped") for c in tc):
                passed.add(f"{tc.get('classname')}::{tc.get('name')}")
    missing = [t for t in base["stable_pass"] if t not in passed]
print(f"stable_pass={len(base['stable_pass'])} passed_now={len(passed)} missing={len(missing)}")
for m in missing: print("  MISSING", m)
sys.exit(1 if missing else 0)
