#!/usr/bin/env python3
"""Development-time tool (never run by a check): assemble KNOWN_FINDINGS.json 'finding' entries from the json blocks of the
findings files, keeping only (item, input) pairs / obligation names that actually fail on the current tree.
Usage: tools/build_known_findings.py Cxx [Cyy ...]   (runs ./check for quick and thorough tiers with VERIF_DUMP_FAILS)"""
import glob, json, os, re, subprocess, sys, tempfile
ROOT = os.path.dirname(os.path.dirname(os.path.abspath(__file__)))
KF = os.path.join(ROOT, "KNOWN_FINDINGS.json")

def blocks(prop):
    out = []
    for f in glob.glob(f"{ROOT}/bounded/*.findings.md") + glob.glob(f"{ROOT}/props/*.findings.md"):
        for b in re.findall(r"```json\n(.*?)```", open(f).read(), re.S):
            try:
                d = json.loads(b)
            except Exception:
                continue
            if isinstance(d, dict) and d.get("property") == prop:
                d["_file"] = os.path.relpath(f, ROOT)
                out.append(d)
    return out

def norm(x):
    return json.dumps(json.loads(json.dumps(x, sort_keys=True)), sort_keys=True)

def failing(prop, tiers):
    fails, obls = {}, set()
    for tier in tiers:
        with tempfile.NamedTemporaryFile(suffix=".json", delete=False) as t:
            path = t.name
        env = dict(os.environ, VERIF_DUMP_FAILS=path, VERIF_SEED="0")
        subprocess.run([f"{ROOT}/check", prop, "--tier", tier], env=env, stdout=subprocess.DEVNULL, stderr=subprocess.DEVNULL)
        if os.path.exists(path) and os.path.getsize(path):
            d = json.load(open(path))
            for f in d["bounded"]:
                fails.setdefault(f["item"], {})[norm(f["input"])] = (f["input"], f["symptom"])
            obls.update(d["obligations"])
        os.unlink(path)
    return fails, obls

def main():
    data = json.load(open(KF))
    props = sys.argv[1:]
    tiers = os.environ.get("KF_TIERS", "quick,thorough").split(",")
    for prop in props:
        data["entries"] = [e for e in data["entries"] if not (e.get("property") == prop and e.get("kind") == "finding")]
        fails, obls = failing(prop, tiers)
        listed_items = {}
        for b in blocks(prop):
            if "obligations" in b:
                names = [o for o in b["obligations"] if o in obls]
                if names:
                    data["entries"].append({"kind": "finding", "property": prop, "id": b.get("id", f"{prop}-deductive"),
                                            "symptom": b.get("symptom", ""), "source": b["_file"],
                                            "match": {"obligations": sorted(names)}})
                    obls -= set(names)
                continue
            items = b.get("items") or [b.get("item")]
            if isinstance(items, dict):
                items = list(items)
            cands = []
            for k in ("inputs_quick", "inputs_thorough", "quick_inputs", "thorough_inputs"):
                v = b.get(k)
                if isinstance(v, list):
                    cands += v
            for item in items:
                if item is None:
                    continue
                keep = [fails[item][norm(c)][0] for c in cands if item in fails and norm(c) in fails[item]]
                # de-duplicate
                seen, uniq = set(), []
                for x in keep:
                    if norm(x) not in seen:
                        seen.add(norm(x)); uniq.append(x)
                if uniq:
                    data["entries"].append({"kind": "finding", "property": prop, "id": b.get("id", f"{prop}-{item}"),
                                            "symptom": (b.get("symptom") or "")[:400], "source": b["_file"],
                                            "match": {"item": item, "inputs": uniq}})
                    for x in uniq:
                        fails[item].pop(norm(x), None)
        left = {i: len(v) for i, v in fails.items() if v}
        print(prop, "unlisted bounded failures:", left, "unlisted refuted obligations:", sorted(obls)[:10], len(obls))
    # merge: re-read the file (it may have been edited meanwhile) and replace only the finding entries of the processed properties
    cur = json.load(open(KF))
    keep = [e for e in cur["entries"] if not (e.get("kind") == "finding" and e.get("property") in props)]
    new = [e for e in data["entries"] if e.get("kind") == "finding" and e.get("property") in props]
    cur["entries"] = keep + new
    json.dump(cur, open(KF, "w"), indent=1)

if __name__ == "__main__":
    main()
