#!/usr/bin/env python3
"""Development-time tool: confirm a seeded property-breaking change and try the registered checks against it.

  tools/seed_trial.py confirm <src_dir> <name>      # src_dir has patch.diff, demo.py, meta.json ; name e.g. C07a
      - scratch worktree /tmp/trial_<name> of /repo HEAD; demo must exit 0 there; apply patch; demo must exit != 0;
        the 246 pinned tests must still pass (tools/run_baseline.py);  on success copies to /verif/seeded/<name>/ and adds
        "confirmed" to meta.json.  The worktree is removed.
  tools/seed_trial.py check <name> [--tier quick|thorough] [--only deductive|bounded]
      - scratch worktree with the patch applied, runs ./check <prop> with VERIF_REPO pointing at it (the same code path as the
        registered commands, which read /repo), records exit code + VIOLATION lines in seeded/<name>/outcome.json; removes the worktree.
        (The registered way - git -C /repo apply; ./check; git -C /repo checkout -- . - gives the same result; the worktree form lets
        several trials run at once without touching /repo.)
  tools/seed_trial.py index      # regenerates seeded/INDEX.md from meta.json + outcome.json
"""
import json
import os
import shutil
import subprocess
import sys
import time

HERE = os.path.dirname(os.path.dirname(os.path.abspath(__file__)))
SEEDED = os.path.join(HERE, "seeded")


def sh(cmd, **kw):
    return subprocess.run(cmd, shell=isinstance(cmd, str), capture_output=True, text=True, **kw)


def worktree(name):
    wt = f"/tmp/trial_{name}"
    sh(f"git -C /repo worktree remove --force {wt}")
    shutil.rmtree(wt, ignore_errors=True)
    r = sh(f"git -C /repo worktree add --detach {wt} HEAD")
    assert r.returncode == 0, r.stderr
    return wt


def drop(wt):
    sh(f"git -C /repo worktree remove --force {wt}")
    shutil.rmtree(wt, ignore_errors=True)
    sh("git -C /repo worktree prune")


def demo(wt, path):
    env = dict(os.environ, PYTHONPATH=wt, MPLBACKEND="Agg", PYTHONHASHSEED="0")
    env.pop("GRAPHIQ_VERIF", None)
    try:
        r = subprocess.run(["/venv/bin/python", path], cwd=wt, env=env, capture_output=True, text=True, timeout=1800)
    except subprocess.TimeoutExpired:
        return 124, "timeout"
    return r.returncode, (r.stdout + r.stderr)[-1500:]


def confirm(src, name):
    meta = json.load(open(os.path.join(src, "meta.json")))
    wt = worktree(name)
    res = {"name": name}
    try:
        dpath = os.path.join(wt, "_demo.py")
        shutil.copy(os.path.join(src, "demo.py"), dpath)
        rc0, out0 = demo(wt, dpath)
        res["demo_unchanged_exit"] = rc0
        r = sh(f"git -C {wt} apply {os.path.join(src, 'patch.diff')}")
        if r.returncode != 0:
            res["error"] = "patch does not apply: " + r.stderr[-400:]
            return res
        rc1, out1 = demo(wt, dpath)
        res["demo_changed_exit"] = rc1
        res["demo_changed_output"] = out1[-800:]
        os.remove(dpath)
        t0 = time.time()
        r = sh([sys.executable, os.path.join(HERE, "tools", "run_baseline.py"), wt])
        res["baseline"] = r.stdout.strip().splitlines()[:6]
        res["baseline_ok"] = r.returncode == 0
        res["baseline_s"] = round(time.time() - t0)
        res["confirmed"] = bool(rc0 == 0 and rc1 != 0 and r.returncode == 0)
        if rc0 != 0:
            res["demo_unchanged_output"] = out0[-800:]
    finally:
        drop(wt)
    if res.get("confirmed"):
        dst = os.path.join(SEEDED, name)
        os.makedirs(dst, exist_ok=True)
        for f in ("patch.diff", "demo.py"):
            shutil.copy(os.path.join(src, f), os.path.join(dst, f))
        meta["confirmed"] = {k: res[k] for k in ("demo_unchanged_exit", "demo_changed_exit", "baseline", "baseline_ok")}
        json.dump(meta, open(os.path.join(dst, "meta.json"), "w"), indent=1)
    return res


def check(name, tier="quick", only=None):
    dst = os.path.join(SEEDED, name)
    meta = json.load(open(os.path.join(dst, "meta.json")))
    prop = meta["property"]
    wt = worktree(name + "_chk")
    try:
        r = sh(f"git -C {wt} apply {os.path.join(dst, 'patch.diff')}")
        assert r.returncode == 0, r.stderr
        env = dict(os.environ, VERIF_REPO=wt, VERIF_EVID_DIR=f"/tmp/trial_evid_{name}")
        cmd = [os.path.join(HERE, "check"), prop, "--tier", tier] + (["--only", only] if only else [])
        t0 = time.time()
        r = subprocess.run(cmd, cwd=HERE, env=env, capture_output=True, text=True)
        out = r.stdout + r.stderr
        viol = [l for l in out.splitlines() if l.startswith("VIOLATION")]
        und = [l for l in out.splitlines() if l.startswith("UNDECIDED")]
        res = {"tier": tier, "only": only, "exit": r.returncode, "violations": len(viol), "first_violations": viol[:6],
               "undecided": len(und), "wall_s": round(time.time() - t0), "tail": out.splitlines()[-4:]}
    finally:
        drop(wt)
        shutil.rmtree(f"/tmp/trial_evid_{name}", ignore_errors=True)
    op = os.path.join(dst, "outcome.json")
    outc = json.load(open(op)) if os.path.exists(op) else {"runs": []}
    outc["runs"] = [x for x in outc["runs"] if (x["tier"], x.get("only")) != (tier, only)] + [res]
    json.dump(outc, open(op, "w"), indent=1)
    return res


def index():
    rows = []
    for name in sorted(os.listdir(SEEDED)):
        d = os.path.join(SEEDED, name)
        if not os.path.isdir(d) or not os.path.exists(os.path.join(d, "meta.json")):
            continue
        meta = json.load(open(os.path.join(d, "meta.json")))
        outc = json.load(open(os.path.join(d, "outcome.json"))) if os.path.exists(os.path.join(d, "outcome.json")) else {"runs": []}
        cells = []
        for r in outc["runs"]:
            tag = r["tier"] + ("/" + r["only"] if r.get("only") else "")
            if r["exit"] == 1 and r["violations"]:
                verdict = "CAUGHT"
            elif r["exit"] == 0 and r.get("only") == "deductive":
                verdict = (f"undecided ({r['undecided']} obligations: the changed function left the accepted subset)" if r.get("undecided")
                           else "silent (the changed code is not under a contract that states this)")
            else:
                verdict = "missed" if r["exit"] == 0 else f"exit {r['exit']}"
            first = ""
            if r["first_violations"]:
                first = " (" + r["first_violations"][0].split("replay=")[-1].split("/")[-1][:70] + ")"
            cells.append(f"{tag}: {verdict}{first}")
        rows.append(f"| {name} | {meta['property']} | {meta.get('summary','').replace('|','/')[:150]} | "
                    f"{(meta.get('needs_to_manifest') or '').replace('|','/')[:110]} | {'; '.join(cells) or 'not run'} |")
    with open(os.path.join(SEEDED, "INDEX.md"), "w") as f:
        f.write("# Seeded property-breaking changes (written by independent sub-agents; confirmed: tests pass, demo fails)\n\n"
                "Apply with `git -C /repo apply seeded/<name>/patch.diff`, run `./check <property>`, undo with `git -C /repo checkout -- .`.\n\n"
                "`quick/deductive` = the deductive part alone (named obligation refuted = CAUGHT); `quick` = the whole registered quick command.\n\n"
                "| name | property | change | needs | outcome of ./check <property> on the changed tree |\n|---|---|---|---|---|\n")
        f.write("\n".join(rows) + "\n")
    print(f"{len(rows)} seeded changes indexed")


if __name__ == "__main__":
    cmd = sys.argv[1]
    if cmd == "confirm":
        print(json.dumps(confirm(sys.argv[2], sys.argv[3]), indent=1))
    elif cmd == "check":
        a = sys.argv[3:]
        tier = a[a.index("--tier") + 1] if "--tier" in a else "quick"
        only = a[a.index("--only") + 1] if "--only" in a else None
        print(json.dumps(check(sys.argv[2], tier, only), indent=1))
    elif cmd == "index":
        index()
