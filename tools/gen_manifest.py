#!/usr/bin/env python3
"""Generate /verif/MANIFEST.json from vf/config.py and validate it against the schema."""
import json, os, sys
ROOT = os.path.dirname(os.path.dirname(os.path.abspath(__file__)))
sys.path.insert(0, ROOT)
from vf.config import PROPS
base = json.load(open("/root/.vp/BASELINE.json"))
checks, na = [], []
for pid, c in sorted(PROPS.items()):
    if not c["built"]:
        na.append({"property_id": pid, "reason": c["reason"]})
        continue
    checks.append({
        "property_id": pid,
        "quick_cmd": f"./check {pid} --tier quick",
        "thorough_cmd": f"./check {pid} --tier thorough",
        "evidence_file": f"evidence/{pid}.json",
        "replay_cmd_template": f"./check {pid} --replay {{path}}",
        "engine": "pyvc",
        "level_claimed": {"category": c["level"], "text": c["text"], "design_ref": c["design_ref"]},
        "level_note": c["level_note"],
        "technique": c["technique"],
    })
man = {
    "version": 1,
    "setup_cmd": "./setup.sh",
    "hooks": {
        "guard": "GRAPHIQ_VERIF",
        "enable": "no source hooks exist: checks read /repo's working tree (ast) and import graphiq with PYTHONPATH=/repo; the variable is exported by ./check but nothing in /repo reads it",
        "baseline_off_cmd": base["cmd"].replace("--junitxml=<file>", "--junitxml=/tmp/graphiq_baseline.junit.xml"),
        "source_commits": [],
        "add_only": True,
    },
    "engines": [
        {"name": "pyvc", "path": "pyvc/", "serves_properties": [c["property_id"] for c in checks],
         "kind_free_text": "VC generator: symbolic execution of the real Python AST under sidecar contracts -> z3/cvc5; exact finite-domain evaluation; run-time contract monitors as bounded stand-ins"},
    ],
    "checks": checks,
    "notes": "See DESIGN.md. Genuine defects repaired by unguarded 'fix:' commits in /repo and unrepaired ones are listed in KNOWN_FINDINGS.json.",
    "not_applicable": na,
}
json.dump(man, open(os.path.join(ROOT, "MANIFEST.json"), "w"), indent=1)
try:
    import jsonschema
    jsonschema.validate(man, json.load(open("/root/.vp/MANIFEST.schema.json")))
    print("MANIFEST.json valid:", len(checks), "checks,", len(na), "not_applicable")
except ImportError:
    print("written (jsonschema not importable here)")
